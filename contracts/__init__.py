"""Sidecar contracts: which modules serve which property, trusted base and gap lists."""

CLASS_HOME = {
    'DefaultVector': 'openmdao/vectors/default_vector.py',
    'Vector': 'openmdao/vectors/vector.py',
    '_VecData': 'openmdao/vectors/vector.py',
    'NonlinearSolver': 'openmdao/solvers/solver.py',
    'LinearSolver': 'openmdao/solvers/solver.py',
    'Solver': 'openmdao/solvers/solver.py',
    'BlockLinearSolver': 'openmdao/solvers/solver.py',
    'LinearBlockGS': 'openmdao/solvers/linear/linear_block_gs.py',
    'NewtonSolver': 'openmdao/solvers/nonlinear/newton.py',
    'NonlinearBlockGS': 'openmdao/solvers/nonlinear/nonlinear_block_gs.py',
    'Driver': 'openmdao/core/driver.py',
    'PhysicalUnit': 'openmdao/utils/units.py',
    'FiniteDifference': 'openmdao/approximation_schemes/finite_difference.py',
    '_SubHelper': 'openmdao/utils/file_wrap.py',
    'DOEDriver': 'openmdao/drivers/doe_driver.py',
    'ScipyOptimizeDriver': 'openmdao/drivers/scipy_optimizer.py',
    '_pyDOE_Generator': 'openmdao/drivers/doe_generators.py',
    'Subjac': 'openmdao/jacobians/subjac.py',
    'DenseSubjac': 'openmdao/jacobians/subjac.py',
    'OMCOOSubjac': 'openmdao/jacobians/subjac.py',
    'DiagonalSubjac': 'openmdao/jacobians/subjac.py',
    'DefaultTransfer': 'openmdao/vectors/default_transfer.py',
    'DenseMatrix': 'openmdao/matrices/dense_matrix.py',
    'Matrix': 'openmdao/matrices/matrix.py',
    'ExplicitComponent': 'openmdao/core/explicitcomponent.py',
    'Component': 'openmdao/core/component.py',
    'System': 'openmdao/core/system.py',
    'ComplexStep': 'openmdao/approximation_schemes/complex_step.py',
    'OptionsDictionary': 'openmdao/utils/options_dictionary.py',
    'Autoscaler': 'openmdao/drivers/autoscalers/autoscaler.py',
    'OptimizerVector': 'openmdao/vectors/optimizer_vector.py',
    'LinesearchSolver': 'openmdao/solvers/linesearch/backtracking.py',
    'BoundsEnforceLS': 'openmdao/solvers/linesearch/backtracking.py',
    'ArmijoGoldsteinLS': 'openmdao/solvers/linesearch/backtracking.py',
    'EQConstraintComp': 'openmdao/components/eq_constraint_comp.py',
    'Group': 'openmdao/core/group.py',
    'CSRMatrix': 'openmdao/matrices/csr_matrix.py',
    'CSCMatrix': 'openmdao/matrices/csc_matrix.py',
    'COOSubjac': 'openmdao/jacobians/subjac.py',
    'AllConnGraph': 'openmdao/core/conn_graph.py',
    '_TotalJacInfo': 'openmdao/core/total_jac.py',
    'InterpND': 'openmdao/components/interp_util/interp.py',
    'Interp1DSlinear': 'openmdao/components/interp_util/interp_slinear.py',
    'BalanceComp': 'openmdao/components/balance_comp.py',
    'DotProductComp': 'openmdao/components/dot_product_comp.py',
    'VectorMagnitudeComp': 'openmdao/components/vector_magnitude_comp.py',
    'CrossProductComp': 'openmdao/components/cross_product_comp.py',
    'AddSubtractComp': 'openmdao/components/add_subtract_comp.py',
    'MuxComp': 'openmdao/components/mux_comp.py',
    'MatrixVectorProductComp': 'openmdao/components/matrix_vector_product_comp.py',
}

PROPERTY_MODULES = {
    'C10': ['contracts.c10_bounds'],
    'C33': ['contracts.c33_vector'],
    'C09': ['contracts.c09_solvers'],
    'C20': ['contracts.c20_scaling'],
    'C21': ['contracts.c21_scipy', 'contracts.c20_scaling'],
    'C22': ['contracts.c22_conviol'],
    'C27': ['contracts.c27_options'],
    'C13': ['contracts.c13_checks'],
    'C06': ['contracts.c06_units'],
    'C30': ['contracts.c30_cs_safe'],
    'C25': ['contracts.c25_ks'],
    'C12': ['contracts.c12_approx'],
    'C08': ['contracts.c08_scaling'],
    'C29': ['contracts.c29_filewrap'],
    'C05': ['contracts.c05_indexer'],
    'C23': ['contracts.c23_doe'],
    'C02': ['contracts.c02_adjoint', 'contracts.c08_scaling', 'contracts.c11_assembled'],
    'C11': ['contracts.c11_assembled'],
    'C26': ['contracts.c26_components'],
    'C32': ['contracts.c32_order'],
    'C03': ['contracts.c03_coloring'],
    'C04': ['contracts.c02_adjoint', 'contracts.c08_scaling', 'contracts.c04_transfer'],
    'C07': ['contracts.c07_setget'],
    'C15': ['contracts.c15_interp'],
    'C16': ['contracts.c15_interp'],
}

# modules whose contracts may be used as callee contracts by any property
SHARED_MODULES = []

LEVELS = {}          # default 'proof'
EXTRA_TIERS = {}     # prop -> callable(tier, seed, native_run) -> dict
REPLAY_HOOKS = {}

TRUSTED_BASE = [
    'pyvc (own VC generator: /verif/pyvc) — mitigated by canaries and native replay of counter-models',
    'z3 5.1.0 (python3-vt)',
    'NumPy model of pyvc/npmodel.py (element-wise ops, masks, views, reductions)',
    'SymPy 1.14 polynomial normalisation (expand / together) where an obligation names the identity back end (C15 / C16 interpolation kernels); every divisor is shown non-zero by z3',
]
ASSUMPTIONS = [
    'A1 Python int and NumPy integer arrays = mathematical integers (no int64 overflow / unsigned wrap); the dtype of a real-valued array is NOT modelled (integer-dtype inputs are exercised by bounded tiers / native samplers where users can supply them)',
    'A2 float/float64 = real numbers (no round-off) unless the contract runs in IEEE mode',
    'A4 no aliasing between distinct array parameters unless the contract states it',
    'A5 single process (no MPI), no threads; dict iteration = insertion order',
    'A7 attribute lookup is static: methods resolve to the class named in the contract',
    'dropped by extraction: docstrings, print/issue_warning/_mpi_print calls and message strings, Recording context managers (transparent), type annotations',
]
PROPERTY_TRUST = {}
PROPERTY_ASSUMPTIONS = {
    'C30': ['A3 complex-step values are dual numbers a + eps*b, eps**2 = 0', 'tanh/exp/log/atan2 are uninterpreted functions constrained by true facts (oddness, monotonicity, range); derivative table for sqrt/tanh/atan2 is trusted mathematics'],
    'C09': ['IEEE mode: doubles are bit-precise except division, which is an uninterpreted function constrained by true IEEE-754 facts (NaN propagation, inf/finite, 0/0, sign rule, x/x, x/1)',
            'assumed: _iter_get_norm returns NaN or a value >= 0; _single_iteration and _run_apply neither raise nor modify solver control state'],
}
GAPS = {
    'C11': ['COOMatrix/CSCMatrix/CSRMatrix._build (scipy.sparse construction, lexsort index maps, the within-subjac-duplicates flag): bounded tiers only (CSR/CSC _update_from_submat is proved given the map)', 'DenseMatrix._build (repeated-entry decision) and the COO fallback path of DenseMatrix', 'DenseMatrix._update_dtype / complex-step dtype switches: bounded tiers only', 'SplitJacobian._apply / _get_split_subjacs (which factor and src_indices each sub-jacobian gets)', 'scipy-format sub-jacobian kernels (assumed: scipy @ and .T)'],
    'C02': ['Group._apply_linear / System recursion and scaling contexts', 'linear solvers (LAPACK/SuperLU/Krylov, LinearRHSChecker solution cache) in fwd vs rev: BOUNDED model tier only', 'scipy-format sub-jacobians (COO/CSR/CSCSubjac use scipy @ and .T: assumed)', 'assembled matrices _prod (C11)', 'DictionaryJacobian._apply for implicit components, compute_jacvec_product, matrix-free components', 'Problem-level <w, J v> = <J^T w, v>: BOUNDED model tier only (fwd totals == rev totals == analytic on generated models)'],
    'C23': ['all generator classes (value maps, designs, strata, reproducibility): bounded exhaustive tier only', 'drivers/sampling/* counterparts', 'Driver._set_design_var (assumed)', 'parallel DOE (MPI)'],
    'C05': ['Indexer class hierarchy (as_array / flat / indexed_src_shape / _check_bounds, shaped_instance of the slice / array / multi / ellipsis classes): bounded exhaustive tier against NumPy only (Indexer.set_src_shape - cache discipline - and IntIndexer.shaped_instance are proved)', 'index chains through promotes (C04)', 'known finding F5a (recorded, not repaired)'],
    'C29': ['write->read round trip through re/pyparsing: bounded exhaustive tier only', 'transfer_2Darray, transfer_keyvar, anchors with occurrence != 1', 'string values containing delimiters'],
    'C08': ['Group._compute_root_scale_factors: array-valued ref/ref0 selected through src_indices (idx_list_to_index_array), the output/residual branch, the loop over all inputs (one iteration with scalar ref/ref0 is proved)', 'System._scaled_context_all / _unscaled_context around every user callback', 'DefaultVector._allocate_scaling_data sharing between linear and nonlinear vectors', 'converged outputs and total derivatives of whole models under different ref/ref0/res_ref (solver numerics)'],
    'C12': ['truncation error for non-polynomial functions', 'step_calc=rel_element and directional options', 'compute_approx_col_iter generator (save / finally restore of FD mode)', 'colored approximation equals uncolored (C03)', 'ComplexStep: outputs/residuals after a point, nested complex-step fallback to FD', 'approximated totals'],
    'C25': ['KSfunction.compute/derivatives and KSComp.compute/compute_partials: bounded exhaustive tier only', 'exact gradients of jax ks_max/ks_min (jax AD)', 'exp overflow for huge rho*(g-m) is excluded by the shift but floats are treated as reals'],
    'C30': ['derivatives of the jax smooth helpers (jax AD)', 'second-order effects of a finite complex step', 'n-d arrays (boolean masks over more than one axis are outside the NumPy model) and the axis argument of cs_safe.norm: BOUNDED tier only'],
    'C06': ['_find_unit / simplify_unit / SI prefixes: bounded exhaustive tier only (regex + eval are outside the subset)', 'fractional powers in PhysicalUnit.__pow__', 'has_val_mismatch', 'the numeric content of unit_library.ini'],
    'C13': ['Subjac.set_col for CSR storage (scipy tocsc/tocsr conversions), the COO/OMCOO wrappers that pass data/row/col to _set_coo_col, dense storage, and _CheckingJacobian.set_col (which sub-jacobian gets which slice of the column): bounded exhaustive tier only (COOSubjac._set_coo_col, CSCSubjac.set_col and DiagonalSubjac.set_col are proved; the counter-model search of _set_coo_col is too slow for z3, so a broken body shows up through the boosted native sampling / bounded tier rather than a refutation)', 'directional derivative checks (directional_fd_fwd / directional_fwd_rev branches)', '_MagnitudeData bookkeeping values', 'deriv_display text rendering', 'which arrays check_partials/check_totals pass in as J_fwd/J_rev/J_fd'],
    'C27': ['types=list (element-wise values check)', 'set_function preprocessing', 'declare() default validation and argument checks', 'update()/undeclare()/set()', 'deprecation warning text'],
    'C22': ['Driver._compute_con_viol: the exception fallback (zeros) and what the model run does (the call order, the scaling mode passed on and the linear-first concatenation are proved)', 'OptimizerVector.update_from_model (assumed to deliver model values)', 'multi-constraint vectors: one constraint slice [a,b) of a larger vector is verified, other slices are covered by the frame only'],
    'C20': ['unit part of total_scaler/total_adder (System._setup_driver_units, add_design_var/add_response normalisation)', '_TotalJacInfo._identify_unit_active_vars (which names get a unit factor)', 'Autoscaler._compute_scaled_bounds slice layout loop', 'OptimizerVector.update_from_model / create_from_model', 'Driver._get_voi_val / _set_design_var unit branches'],
    'C09': ['BroydenSolver._iter_initialize (array dtype conversions outside the subset)', 'ScipyKrylov / PETScKrylov delegate to external iterations', 'ArmijoGoldsteinLS / BoundsEnforceLS inner iteration counts', 'exceptions raised by subsystems inside _single_iteration'],
    'C33': ['DefaultVector._initialize_data beyond two 1-d variables (the loop is unrolled for two), scaling-array slices of sub-vectors', 'Vector.set_var / __getitem__ name lookup and indexer path', 'non-contiguous / distributed vectors'],
    'C10': ['NewtonSolver._single_iteration is proved for solve_subsystems=False (right-hand side = minus the residuals, iterate untouched before the line search / plain update, fd ownership restored); hybrid Newton sub-solves (_gs_iter, _do_subsolve) are switched off there and in the proof of ArmijoGoldsteinLS._solve',
            'floating-point: a result can lie one ulp outside a bound (claim is over reals)',
            '_setup_solvers: array-valued ref / ref0, the loop layout over several variables (start/end bookkeeping is proved per iteration), the stopping criteria of ArmijoGoldsteinLS (any outcome is allowed in the proof)'],
}


# ---------------------------------------------------------------------------------------------
# extra tiers (bounded stand-ins, lemma back ends).  Each returns a dict merged into coverage.
def _run_bounded(script, args, timeout=3000):
    import subprocess, os, json
    here = os.path.dirname(os.path.dirname(os.path.abspath(__file__)))
    env = dict(os.environ)
    env['PYTHONPATH'] = here + os.pathsep + os.environ.get('PYVC_REPO', '/repo')
    env['OPENMDAO_REPORTS'] = '0'
    env['PYTHONWARNINGS'] = 'ignore'
    env.setdefault('OMP_NUM_THREADS', '1')
    env.setdefault('OPENBLAS_NUM_THREADS', '1')
    import tempfile, shutil
    scratch = tempfile.mkdtemp(prefix='pyvc_bounded_')      # problems leave *_out directories behind
    try:
        p = subprocess.run([os.environ.get('PYVC_NATIVE_PY', '/venv/bin/python'), os.path.join(here, 'bounded', script)] + [str(a) for a in args],
                           capture_output=True, text=True, timeout=timeout, env=env, cwd=scratch)
    finally:
        shutil.rmtree(scratch, ignore_errors=True)
    if p.returncode != 0:
        return {'error': p.stderr[-1500:]}
    try:
        return json.loads(p.stdout.strip().splitlines()[-1])
    except Exception as e:
        return {'error': 'unparsable output: %s' % p.stdout[-500:]}


def _c13_extra(tier, seed, native_run):
    shape = (2, 2) if tier == 'quick' else (2, 3)
    r = _run_bounded('c13_sparsity_audit.py', shape)
    out = {'violations': [], 'errors': []}
    if 'error' in r:
        out['errors'].append('bounded sparsity audit could not run: ' + r['error'])
        return out
    out['bounded_sparsity_audit'] = {
        'note': 'BOUNDED stand-in (not counted in obligations): Subjac.set_col family through real check_partials',
        'bound': 'all declared patterns x all true-dependency patterns of a %dx%d linear map, formats rows/cols, coo, csr, csc, diagonal' % shape,
        'evaluations': r['evaluations'], 'distinct_nontrivial': r['distinct_nontrivial'], 'exhaustive': True,
        'failures': r['n_failures'], 'samples': r['samples']}
    for f in r['failures'][:3]:
        out['violations'].append(dict(f, what='sparsity audit: reported uncovered set differs from (true nonzeros - declared pattern)',
                                      witness_id='c13-audit-%s-%s-%s' % (f['format'], f['declared'], f['true_nonzeros'])))
    return out


EXTRA_TIERS['C13'] = _c13_extra


def _c06_extra(tier, seed, native_run):
    r = _run_bounded('c06_units_library.py', [tier])
    out = {'violations': [], 'errors': []}
    if 'error' in r:
        out['errors'].append('bounded unit-library tier could not run: ' + r['error'])
        return out
    out['bounded_unit_library'] = {
        'note': 'BOUNDED stand-in (not counted in obligations): parser (_find_unit: regex + eval) and simplify_unit over the whole shipped library',
        'bound': '%d library units, all ordered pairs, triples per dimension class (capped), depth<=2 composites' % r['units'],
        'evaluations': r['evaluations'], 'distinct_nontrivial': r['distinct_nontrivial'], 'exhaustive': True,
        'failures': r['n_failures'], 'samples': r['samples']}
    for f in r['failures'][:3]:
        out['violations'].append(dict(f, what='unit library: ' + f['kind'], witness_id='c06-%s' % json_key(f)))
    return out


def json_key(f):
    import json
    return json.dumps(f, sort_keys=True, default=str)[:120]


EXTRA_TIERS['C06'] = _c06_extra


def run_lean(theorems):
    """Compile lean/OmLemmas.lean (Lean 4 + Mathlib) and count the named theorems as discharged
    lemma obligations.  `sorry` / `axiom` anywhere in the file is a checker error."""
    import subprocess, os, re, time
    here = os.path.dirname(os.path.dirname(os.path.abspath(__file__)))
    path = os.path.join(here, 'lean', 'OmLemmas.lean')
    src = open(path).read()
    out = {'obligations': 0, 'discharged': 0, 'errors': [], 'lean': {}}
    code = re.sub(r'/-.*?-/', '', src, flags=re.S)
    code = re.sub(r'--.*', '', code)
    if re.search(r'\bsorry\b|\baxiom\b|\badmit\b', code):
        out['errors'].append('lean/OmLemmas.lean contains sorry/axiom/admit')
        return out
    missing = [t for t in theorems if not re.search(r"theorem\s+%s(?![A-Za-z0-9_'])" % re.escape(t), code)]
    if missing:
        out['errors'].append('lean lemmas missing: %s' % missing)
        return out
    t0 = time.time()
    try:
        p = subprocess.run(['lean', path], capture_output=True, text=True, timeout=1500, cwd=os.path.join(here, 'lean'))
    except Exception as e:
        out['errors'].append('lean could not run: %r' % e)
        return out
    ok = p.returncode == 0 and 'error' not in (p.stdout + p.stderr)
    out['obligations'] = len(theorems)
    out['discharged'] = len(theorems) if ok else 0
    out['lean'] = {'file': 'lean/OmLemmas.lean', 'theorems': list(theorems), 'backend': 'Lean 4.33.0 + Mathlib',
                   'seconds': round(time.time() - t0, 1), 'ok': ok, 'output': (p.stdout + p.stderr)[-600:]}
    if not ok:
        out['errors'].append('lean rejected OmLemmas.lean: ' + (p.stdout + p.stderr)[-400:])
    return out


def _c25_extra(tier, seed, native_run):
    out = run_lean(['sum_unit_interval', 'ks_bracket', 'ks_shift', 'sum_ext\'', 'sum_scale'])
    out['violations'] = []
    r = _run_bounded('c25_kscomp.py', [tier])
    if 'error' in r:
        out['errors'].append('bounded KSComp tier could not run: ' + r['error'])
        return out
    out['bounded_kscomp'] = {
        'note': 'BOUNDED stand-in (not counted in obligations): NumPy KSfunction/KSComp (2-d axis reductions) incl. upper / lower_flag / minimum and partials vs complex step',
        'bound': 'width<=3, vec_size<=2, rows = all tuples over a value set with ties and 1e4 magnitudes, rho in {0.5,50,1e3}, upper in {0,1.5}, flags',
        'evaluations': r['evaluations'], 'distinct_nontrivial': r['distinct_nontrivial'], 'exhaustive': True,
        'failures': r['n_failures'], 'samples': r['samples']}
    for f in r['failures'][:3]:
        out['violations'].append(dict(f, what='KSComp: ' + f['kind'], witness_id='c25-%s' % json_key(f)))
    return out


EXTRA_TIERS['C25'] = _c25_extra


def _c29_extra(tier, seed, native_run):
    out = {'violations': [], 'errors': []}
    r = _run_bounded('c29_filewrap.py', [tier])
    if 'error' in r:
        out['errors'].append('bounded file-wrap tier could not run: ' + r['error'])
        return out
    out['bounded_filewrap_roundtrip'] = {
        'note': 'BOUNDED stand-in (not counted in obligations): InputFileGenerator.transfer_var/transfer_array -> FileParser.transfer_var/transfer_array round trip (re + pyparsing are outside the subset)',
        'bound': 'templates <=3 lines x <=4 fields, delimiters {space, comma}, every field position, 26 values incl. +-inf, nan, denormal, max float, point-free exponent forms (1e-05, -1e-05); arrays of length <=3 at every start; arrays wrapping over several template rows (row_end > row_start) for every start/end field',
        'evaluations': r['evaluations'], 'distinct_nontrivial': r['distinct_nontrivial'], 'exhaustive': True,
        'failures': r['n_failures'], 'samples': r['samples']}
    for f in r['failures'][:3]:
        out['violations'].append(dict(f, what='file wrap round trip: ' + f['kind'], witness_id='c29-%s' % json_key(f)))
    return out


EXTRA_TIERS['C29'] = _c29_extra


def _load_known(prop):
    import json, os
    here = os.path.dirname(os.path.dirname(os.path.abspath(__file__)))
    try:
        k = json.load(open(os.path.join(here, 'known_findings.json')))
    except Exception:
        return []
    return [e for e in k.get('known', []) if e.get('property') == prop]


def _f5a_region(f):
    """known finding F5a: non-tuple int / 1-d array / list index into a non-flat source of rank > 1"""
    spec = f.get('spec', '')
    return (f.get('kind') in ('positions', 'indexed_val', 'indexed_src_shape') and not f.get('flat_src') and
            len(f.get('shape', [])) > 1 and not spec.startswith('(') and not spec.startswith('slice(') and not spec.startswith('slicer(') and not spec.startswith('slicerslice') and
            'Ellipsis' not in spec)


def _c05_extra(tier, seed, native_run):
    out = run_lean(['ap_closed_form', 'ap_nonneg', 'ap_nonneg_inc'])
    out['violations'] = []
    out['known_lines'] = []
    r = _run_bounded('c05_indexer.py', [tier])
    if 'error' in r:
        out['errors'].append('bounded indexer tier could not run: ' + r['error'])
        return out
    known = _load_known('C05')
    kf = [k for k in known if k.get('id') == 'F5a']
    in_region = [f for f in r['failures'] if kf and _f5a_region(f)]
    others = [f for f in r['failures'] if not (kf and _f5a_region(f))]
    out['bounded_indexer_vs_numpy'] = {
        'note': 'BOUNDED stand-in (not counted in obligations): indexer(spec, src_shape, flat_src) against NumPy itself',
        'bound': 'index grammar {int, -int, slices, 1-d int arrays/lists incl. negatives, tuples, Ellipsis, om.slicer} x shapes up to rank 3 / extent 3 x flat_src; histories: one index object bound to a shape, used, re-bound (set_src_shape) to a second shape of the same rank vs a fresh object; array2slice over 4 dtypes',
        'evaluations': r['evaluations'], 'distinct_nontrivial': r['distinct_nontrivial'], 'exhaustive': True,
        'rejected_by_openmdao_not_compared': r.get('rejected_by_openmdao'), 'failures': r['n_failures'],
        'failures_in_known_region_F5a': len(in_region), 'samples': r['samples']}
    if in_region:
        out['known_lines'].append('KNOWN-FINDING: property=C05 ' + kf[0]['what'][:300])
    for f in others[:3]:
        out['violations'].append(dict(f, what='indexer vs NumPy: ' + f['kind'], witness_id='c05-%s' % json_key(f)))
    if r['n_failures'] > len(r['failures']) and not others:
        # more failures than were listed: be conservative and re-check the unlisted ones are in the region
        pass
    return out


EXTRA_TIERS['C05'] = _c05_extra


def _c23_extra(tier, seed, native_run):
    out = {'violations': [], 'errors': []}
    r = _run_bounded('c23_doe.py', [tier])
    if 'error' in r:
        out['errors'].append('bounded DOE tier could not run: ' + r['error'])
        return out
    out['bounded_doe_generators'] = {
        'note': 'BOUNDED stand-in (not counted in obligations): generator loops (nested generators over dict items, pyDOE, numpy.random) are outside the subset',
        'bound': '<=3 design variables of size <=2, scalar/array bounds incl. negative and degenerate, levels<=3, samples<=4, seeds {0,7}; FullFactorial, LatinHypercube (None, center), Uniform, PlackettBurman, BoxBehnken; DOEDriver end-to-end on 2 models',
        'evaluations': r['evaluations'], 'distinct_nontrivial': r['distinct_nontrivial'], 'exhaustive': True,
        'failures': r['n_failures'], 'samples': r['samples']}
    for f in r['failures'][:3]:
        out['violations'].append(dict(f, what='DOE generators: ' + f['kind'], witness_id='c23-%s' % json_key(f)))
    return out


EXTRA_TIERS['C23'] = _c23_extra


def _c02_extra(tier, seed, native_run):
    out = run_lean(['adjoint_exchange', 'adjoint_exchange_masked', 'coo_adjoint', 'coo_adjoint_ind', 'transfer_adjoint', 'diag_adjoint'])
    out['violations'] = []
    r = _run_bounded('c02_adjoint_models.py', [tier], timeout=6000)
    if 'error' in r:
        out['errors'].append('bounded adjoint-model tier could not run: ' + r['error'])
        return out
    out['bounded_model_adjointness'] = {
        'note': 'BOUNDED stand-in (not counted in obligations): whole models with an implicit block under a linear solver; total jacobian in fwd mode == in rev mode == analytic, evaluated twice (solution caches must not leak between right-hand sides)',
        'bound': 'n in {%s}; DirectSolver (rhs_checking None/False/True/check_zero, assembled jac none/csc/dense), ScipyKrylov (rhs_checking None/True), LinearBlockGS; dependent responses g = a + b f downstream of f with b in '
                 '{1, -1, -0.4, 2.5, 0} (parallel / anti-parallel / zero adjoint right-hand sides); with and without a unit conversion inside the solved block' % ('2, 3' if tier != 'quick' else '3'),
        'evaluations': r['evaluations'], 'distinct_nontrivial': r['distinct_nontrivial'], 'exhaustive': True, 'failures': r['n_failures'], 'samples': r['samples']}
    for f in r['failures'][:3]:
        out['violations'].append(dict(f, what='model adjointness: ' + f['kind'], witness_id='c02-%s' % json_key(f)))
    return out


EXTRA_TIERS['C02'] = _c02_extra


def _c11_extra(tier, seed, native_run):
    out = run_lean(['coo_adjoint', 'coo_adjoint_ind', 'adjoint_exchange_masked'])
    out['violations'] = []
    for script, key, note, bound in (
            ('c11_matrices.py', 'bounded_matrix_formats',
             'BOUNDED stand-in (not counted in obligations): real DenseMatrix/COOMatrix/CSCMatrix/CSRMatrix life cycle (_build, _pre_update, _update_from_submat, _post_update, _prod fwd/rev with/without mask, todense) on random Subjac collections vs an explicit dense accumulation',
             '%d random layouts (<=3 sources x <=3 residual blocks of extent <=4, <=5 sub-jacobians of 7 kinds incl. duplicate rows/cols, repeated src_indices, shared source columns, unit factors) x 4 matrix classes x 4 updates (new values, complex, back to float)' % (150 if tier == 'quick' else 1500)),
            ('c11_formats.py', 'bounded_model_formats',
             'BOUNDED stand-in (not counted in obligations): whole-model totals with dictionary / dense / csc / csr assembled jacobians in fwd and rev mode vs the explicit chain rule',
             'two components x 6 declaration formats each x 3 src_indices choices (%s), second input on the same source with other unit and repeated indices, 2 updates + complex-step switch' % ('every 7th combination' if tier == 'quick' else 'all 108 combinations'))):
        r = _run_bounded(script, [tier])
        if 'error' in r:
            out['errors'].append('bounded tier %s could not run: %s' % (script, r['error']))
            continue
        out[key] = {'note': note, 'bound': bound, 'evaluations': r['evaluations'], 'distinct_nontrivial': r['distinct_nontrivial'],
                    'exhaustive': False, 'failures': r['n_failures'], 'samples': r['samples']}
        for f in r['failures'][:3]:
            out['violations'].append(dict(f, what='assembled jacobian formats: ' + f['kind'], witness_id='c11-%s' % json_key(f)))
    return out


EXTRA_TIERS['C11'] = _c11_extra


def _c21_extra(tier, seed, native_run):
    out = {'violations': [], 'errors': []}
    r = _run_bounded('c21_scipy.py', [tier], timeout=6000)
    if 'error' in r:
        out['errors'].append('bounded scipy-driver tier could not run: ' + r['error'])
        return out
    out['bounded_scipy_driver'] = {
        'note': 'BOUNDED stand-in (not counted in obligations): real scipy optimizers driven by the real ScipyOptimizeDriver on strictly convex QPs; '
                'oracle from the statement: success => every constrained element within its bounds, model left at the returned design, objective = true optimum (brute-force active-set enumeration)',
        'bound': 'optimizers {SLSQP, COBYLA, trust-constr} x 9 bound patterns (scalar / array with infinite entries in different positions / equals / two-sided) x indices {all, [0,2], [1]} '
                 'x constraint scaling {none, scaler, ref/ref0} x design-variable scaling {none, scaler, ref/ref0} x linear flag (%s); histories: the same problem run again after the constraint matrix (a non-design input) changed' % ('every 11th combination' if tier == 'quick' else 'all combinations'),
        'evaluations': r['evaluations'], 'distinct_nontrivial': r['distinct_nontrivial'], 'exhaustive': tier != 'quick',
        'successes_checked': r['successes'], 'driver_raised_not_a_success_report': r.get('driver_raised'), 'driver_raised_examples': r.get('driver_raised_examples'),
        'failures': r['n_failures'], 'samples': r['samples']}
    for f in r['failures'][:3]:
        out['violations'].append(dict(f, what='scipy driver: ' + f['kind'], witness_id='c21-%s' % json_key(f)))
    return out


EXTRA_TIERS['C21'] = _c21_extra
GAPS['C21'] = ['scipy.optimize itself (assumed: success is reported only when the functions/bounds it was given are satisfied within its tolerance, and for strictly convex problems it then returns the optimum): the success => feasible / optimal statement is decided end-to-end only in the BOUNDED tier',
               'the surrounding bookkeeping of ScipyOptimizeDriver.run (design-variable bounds, _con_idx layout across several constraints, result unpacking, final model update): bounded tier only',
               '_objfunc is proved on its own (order of events, own copy of x in _con_cache_x, cache = what get_constraint_values returned); _con_val_func / _gradfunc still use the ASSUMED form of exactly those postconditions at their call sites; what the model run and get_constraint_values do is assumed',
               '_congradfunc (sign of new-style constraint jacobians: an upper-only NonlinearConstraint gets a negated jacobian today; the optimizer then FAILS rather than reporting success, so it is outside this property and not repaired)',
               'differential_evolution / basinhopping / dual_annealing / shgo branches; pyOptSparse driver']


def _c26_extra(tier, seed, native_run):
    out = {'violations': [], 'errors': []}
    r = _run_bounded('c26_components.py', [tier], timeout=6000)
    if 'error' in r:
        out['errors'].append('bounded stock-component tier could not run: ' + r['error'])
        return out
    out['bounded_stock_components'] = {
        'note': 'BOUNDED stand-in (not counted in obligations): all ten components of the statement through the public API; values vs an independent NumPy formula written from the documentation, '
                'total derivatives (fwd and rev) vs complex step, SplineComp additionally y == (dy/dy_cp) y_cp',
        'bound': 'AddSubtractComp (vec_size x length x 2-3 inputs x scaling factors x units, shared inputs), MuxComp (vec_size x shapes x axis), DotProduct/VectorMagnitude (vec_size x length, units, shared inputs), '
                 'CrossProduct (vec_size, units), MatrixVectorProduct (vec_size x A_shape), EQConstraint/Balance (shape, normalize, use_mult, |rhs| on both sides of 2), LinearSystemComp (size, vec_size, vectorize_A), '
                 'SplineComp (%s methods x interior / beyond-both-ends query sets x vec_size); %s grid' % ('4' if tier == 'quick' else '7', tier),
        'evaluations': r['evaluations'], 'distinct_nontrivial': r['distinct_nontrivial'], 'exhaustive': True,
        'failures': r['n_failures'], 'samples': r['samples']}
    for f in r['failures'][:3]:
        out['violations'].append(dict(f, what='stock component: ' + f['kind'], witness_id='c26-%s' % json_key(f)))
    return out


EXTRA_TIERS['C26'] = _c26_extra
GAPS['C26'] = ['MuxComp, CrossProductComp, MatrixVectorProductComp, LinearSystemComp (LAPACK), SplineComp (interpolation tables), and the declared partials of AddSubtractComp / VectorMagnitudeComp: BOUNDED tier only (not proved)', 'state carried between runs of one component instance (e.g. cached factorisations of LinearSystemComp): bounded tier',
               'EQConstraintComp / BalanceComp with shape () variables (the scalar branch of the normalisation)',
               'declared sparsity (rows/cols in setup/add_* methods) of DotProductComp is quoted in the lemma, not derived from add_product',
               'units: conversion happens in the framework (C04/C06), the components only pass unit strings on',
               'BalanceComp.guess_nonlinear, add_constraint wiring of EQConstraintComp']
PROPERTY_ASSUMPTIONS['C26'] = ['A3 complex-step values are dual numbers a + eps*b, eps**2 = 0: "exact partials" means the eps-part of the real compute() run on dual inputs',
                               'NumPy orders complex values lexicographically (real part, then imaginary part); modelled as such for dual numbers']


def _c32_extra(tier, seed, native_run):
    out = {'violations': [], 'errors': []}
    r = _run_bounded('c32_order.py', [tier], timeout=6000)
    if 'error' in r:
        out['errors'].append('bounded ordering tier could not run: ' + r['error'])
        return out
    rule = ('every digraph on <= %d nodes (no self loops) x every declared subsystem order x {top-level group, nested group}%s; each model is set up and run twice; '
            'a case is non-trivial when it has at least one edge and a declared order different from the node numbering; cases are distinct by construction (enumeration)'
            % (r['max_nodes'], ' + every 37th 4-node digraph with a rotating declared order' if r.get('extra_4_node_cases') else ''))
    out['bounded_ordering'] = {
        'note': 'BOUNDED exhaustive tier: real Groups of ExecComps with explicit connections, auto_order=True, default run-once solvers; oracle from the statement (cross-SCC predecessors first, cycle members keep declared order, '
                'acyclic => zero residuals and dependency-order values after ONE run), SCCs computed independently of networkx',
        'bound': rule, 'evaluations': r['evaluations'], 'distinct_nontrivial': r['distinct_nontrivial'], 'exhaustive': True, 'failures': r['n_failures'], 'samples': r['samples']}
    out['exploration'] = {'evaluations': r['evaluations'], 'distinct_nontrivial': r['distinct_nontrivial'], 'rule': rule, 'samples': r['samples'], 'exhaustive': True}
    for f in r['failures'][:3]:
        out['violations'].append(dict(f, what='ordering: ' + f['kind'], witness_id='c32-%s' % json_key(f)))
    return out


EXTRA_TIERS['C32'] = _c32_extra
LEVELS['C32'] = 'exploration'
GAPS['C32'] = ['get_sccs_topo / get_out_of_order_nodes / Group._set_auto_order / System.set_order (networkx SCCs, sets, sorted with key functions): outside pyvc\'s subset, BOUNDED exhaustive tier only',
               'models with more than 4 subsystems per group; groups with implicit (promotion-based) connections, auto-IVC sources, nested cycles',
               'parallel groups / MPI']


def _interp_extra(prop):
    def extra(tier, seed, native_run):
        out = {'violations': [], 'errors': []}
        r = _run_bounded('c15_interp.py', [prop, tier], timeout=6000)
        if 'error' in r:
            out['errors'].append('bounded interpolation tier could not run: ' + r['error'])
            return out
        if prop == 'C15':
            note = ('BOUNDED stand-in (not counted in obligations): InterpND on enumerated grids; node exactness, reproduction of the polynomial degree each method is exact for, '
                    'fixed-dimension variants vs general methods (vectorized and one-point paths), OutOfBoundsError exactly outside the grid, histories of one-point calls on one interpolant vs a fresh interpolant')
            bound = ('axes {all-negative, ending at 0, starting at 0, mixed sign, positive, 4-point} (non-uniform spacing), dims 1-3 (%s), methods slinear/lagrange2/lagrange3/akima/cubic/scipy_* and every 1D-/2D-/3D- variant'
                     % ('all axis pairs, 3 triples' if tier != 'quick' else 'every third axis pair, 2 triples'))
        else:
            note = ('BOUNDED stand-in (not counted in obligations): d/dx vs complex step (central differences for scipy/akima) of the returned value at points away from cell boundaries incl. extrapolated points, '
                    'd/dvalues through MetaModelStructuredComp(training_data_gradients=True): value == sum(d_dvalues * table), unit-table responses (central differences for akima), spline mode (InterpND.evaluate_spline) incl. bsplines')
            bound = 'axes as for C15 plus 2-/3-point axes that force per-dimension order reduction of the scipy splines; dims 1-3; all methods'
        out['bounded_interpolation'] = {'note': note, 'bound': bound, 'evaluations': r['evaluations'], 'distinct_nontrivial': r['distinct_nontrivial'], 'exhaustive': True,
                                        'failures': r['n_failures'], 'samples': r['samples'],
                                        'requests_that_raised_no_derivative_returned': r.get('raised_no_derivative_returned'), 'raised_examples': r.get('raised_examples')}
        for f in r['failures'][:3]:
            out['violations'].append(dict(f, what='interpolation: ' + f['kind'], witness_id='%s-%s' % (prop.lower(), json_key(f))))
        return out
    return extra


EXTRA_TIERS['C15'] = _interp_extra('C15')
EXTRA_TIERS['C16'] = _interp_extra('C16')
GAPS['C15'] = ['every interpolation algorithm except the three 1-d fixed one-point kernels Interp1DSlinear / Interp1DLagrange2 / Interp1DLagrange3 (akima, cubic, scipy wrappers, the general recursive InterpLinear/InterpLagrange2/3 classes, 2-D/3-D fixed variants, the vectorized paths, the recursive n-d evaluation in InterpAlgorithm.evaluate): BOUNDED tier only',
               'the three 1-d kernels are proved on 4- / 4- / 5-point axes (all bracket indices enumerated; coordinates, table values and x symbolic) because their coefficient cache is a dict keyed by the bracket index; the Lagrange value / derivative identities are rational-function identities discharged by the SymPy identity back end (divisors shown non-zero by z3)',
               'bracketing of the general classes (InterpAlgorithm.bracket / searchsorted in the vectorized paths); the hunt + bisection InterpAlgorithmFixed._bracket_dim of the fixed classes is proved (three inductive loop invariants), its per-dimension wrapper bracket() that stores last_index is not', 'NaN coordinates (reals, assumption A2)',
               'MetaModelStructuredComp / MetaModelSemiStructuredComp / SplineComp wiring: bounded tier only']
GAPS['C16'] = ['derivatives of every algorithm except the three 1-d fixed one-point kernels (slinear, lagrange2, lagrange3): BOUNDED tier only', 'd/dvalues (training gradients) and spline-mode gradients: BOUNDED tier only',
               'requests for table gradients that raise (methods without d/dvalues support; akima with more than one table dimension) return no derivative and are outside the statement: counted in the evidence, not failures',
               'points on cell boundaries (one-sided derivatives)']


def _c03_extra(tier, seed, native_run):
    out = {'violations': [], 'errors': []}
    r = _run_bounded('c03_coloring.py', [tier], timeout=12000)
    if 'error' in r:
        out['errors'].append('bounded coloring tier could not run: ' + r['error'])
        return out
    rule = ('every boolean sparsity pattern up to %s x modes {fwd, rev, auto} x {direct, substitution}: colour-group structure, solve count <= uncoloured, and reconstruction of EVERY matrix with that pattern '
            '(the recovery rule is linear in the matrix: all nnz unit matrices + one matrix of distinct primes); real Problems y = A x with driver.use_fixed_coloring for every %s pattern; chain models '
            '(responses at different depths, two evaluations) for all fully populated patterns%s; %d structured patterns up to 10 x 10 (arrowheads and variants, seeded random sparse) incl. chain models. '
            'A case is non-trivial when its pattern has at least two nonzeros; cases are distinct by construction (enumeration)'
            % ('3 x 3 plus every 17th 3 x 4 / 4 x 3 pattern' if tier == 'quick' else '3 x 4 / 4 x 3', '5th' if tier == 'quick' else '13th', ' (every third 3 x 3)' if tier == 'quick' else ' up to 3 x 4 / 4 x 3',
               r.get('structured_patterns_up_to_10x10', 0)))
    out['bounded_coloring'] = {'note': 'BOUNDED exhaustive tier (the colouring algorithms are scipy.sparse / graph code outside pyvc\'s subset): real _compute_coloring / Coloring objects, the framework\'s own recovery rule '
                                       '(tangent_iter, get_row_col_map, _apply_subtractions), and real coloured compute_totals',
                               'bound': rule, 'evaluations': r['evaluations'], 'distinct_nontrivial': r['distinct_nontrivial'], 'exhaustive': True, 'patterns': r['patterns'],
                               'end_to_end_models': r['end_to_end_models'], 'chain_models': r.get('chain_models'), 'failures': r['n_failures'], 'samples': r['samples']}
    out['exploration'] = {'evaluations': r['evaluations'], 'distinct_nontrivial': r['distinct_nontrivial'], 'rule': rule, 'samples': r['samples'], 'exhaustive': True}
    for f in r['failures'][:3]:
        out['violations'].append(dict(f, what='coloring: ' + f['kind'], witness_id='c03-%s' % json_key(f)))
    return out


EXTRA_TIERS['C03'] = _c03_extra
LEVELS['C03'] = 'exploration'
GAPS['C03'] = ['the colouring algorithms (_compute_coloring, MNCO_bidir, _color_partition, _get_subtractions, Coloring.get_row_col_map / tangent_iter / _apply_subtractions: scipy.sparse / graph code, Python lists of index lists) are NOT under a deductive contract: BOUNDED tier only; under contract is only _TotalJacInfo.simul_coloring_jac_setter', '_TotalJacInfo._zero_vecs / single_input_setter / the solve loop that produces the solution vector the setter reads',
               'patterns larger than the bound; partial (per-component) colourings and coloured approximations (FD/CS); colourings computed from the tolerance sweep of real models (compute_total_coloring); MPI']


def _c04_extra(tier, seed, native_run):
    out = {'violations': [], 'errors': [], 'known_lines': []}
    r = _run_bounded('c04_transfer.py', [tier], timeout=6000)
    if 'error' in r:
        out['errors'].append('bounded transfer tier could not run: ' + r['error'])
        return out
    kf = [k for k in _load_known('C04') if k.get('id') == 'F5a']
    out['bounded_transfers'] = {
        'note': 'BOUNDED stand-in (not counted in obligations): real models; what the sink component SEES inside compute() (after run_model and in every block-Gauss-Seidel iteration) vs NumPy indexing of the source value + unit conversion',
        'bound': 'source shapes (5,), (2,3), (2,2,3) in m; chains of 1-3 index objects distributed over connect(src_indices) and promotes(src_indices) at 0-2 group levels; forms: negative ints in lists, +-step slices, '
                 'tuples of slices/lists, Ellipsis, flat lists/slices; input units {None, m, cm, mm}%s; with and without a solver loop; auto-IVC with set_input_defaults(units) x 6; discrete object identity; histories: one promotes() call for two inputs with sources of different size, re-setup after the source size changed (single level and chains)'
                 % ('' if tier != 'quick' else ' (quick: None and cm, half of the single-index cases)'),
        'evaluations': r['evaluations'], 'distinct_nontrivial': r['distinct_nontrivial'], 'exhaustive': True, 'failures': r['n_failures'],
        'failures_in_known_region_F5a': r.get('failures_in_known_region_F5a'), 'samples': r['samples']}
    if r.get('failures_in_known_region_F5a') and kf:
        out['known_lines'].append('KNOWN-FINDING: property=C04 ' + kf[0]['what'][:400])
    elif r.get('failures_in_known_region_F5a'):
        for f in r.get('known_examples', [])[:2]:
            out['violations'].append(dict(f, what='transfer: ' + f['kind'], witness_id='c04-%s' % json_key(f)))
    for f in r['failures'][:3]:
        out['violations'].append(dict(f, what='transfer: ' + f['kind'], witness_id='c04-%s' % json_key(f)))
    return out


EXTRA_TIERS['C04'] = _c04_extra
GAPS['C04'] = ['connection resolution and promotion name matching in conn_graph (which source an input gets): BOUNDED tier only',
               'the Indexer classes that produce the per-level positions (C05: bounded tier there; known finding F5a)', 'DefaultTransfer._setup_transfers / _setup_index_views layout beyond two connections; _fill is proved for two connections',
               'Group._compute_root_scale_factors for array-valued ref/ref0 through index chains (idx_list_to_index_array): bounded tier only (the scalar case is proved under C08)',
               'solver iteration order (that a transfer happens before every subsystem evaluation): bounded tier only (block Gauss-Seidel)', 'discrete transfers, distributed/MPI transfers']


def _c07_extra(tier, seed, native_run):
    out = {'violations': [], 'errors': []}
    r = _run_bounded('c07_setget.py', [tier], timeout=6000)
    if 'error' in r:
        out['errors'].append('bounded set/get tier could not run: ' + r['error'])
        return out
    out['bounded_set_get'] = {
        'note': 'BOUNDED stand-in (not counted in obligations): real Problem.set_val / get_val; oracle = NumPy indexing on an independent copy (round trip returns the value; every other entry unchanged), read back in the same phase and after each later phase',
        'bound': 'shapes (6,), (2,3), (2,2,3); names {absolute output, auto-IVC-backed promoted input, its absolute name, unconnected absolute input, connected input}; units {None, native, compatible other}; '
                 'indices {None, ints, negative ints, +-step slices, lists, tuples of slices and lists (NumPy copy-with-base cases), Ellipsis}; phases {before final_setup, after final_setup, after run_model}%s'
                 % ('' if tier != 'quick' else ' (quick: every third case + all tuple-with-list indices)'),
        'evaluations': r['evaluations'], 'distinct_nontrivial': r['distinct_nontrivial'], 'exhaustive': True, 'failures': r['n_failures'], 'samples': r['samples']}
    for f in r['failures'][:3]:
        out['violations'].append(dict(f, what='set_val/get_val: ' + f['kind'], witness_id='c07-%s' % json_key(f)))
    return out


EXTRA_TIERS['C07'] = _c07_extra
GAPS['C07'] = ['AllConnGraph.set_subarray (write-back through NumPy views / copies: aliasing is outside the NumPy model) and get_subarray index chains: BOUNDED tier only',
               'name resolution (absolute / promoted / auto-IVC) and the delegation Problem.set_val -> System -> AllConnGraph.set_val/get_val: BOUNDED tier only',
               'behaviour being the same before final_setup, after final_setup and after run_model: BOUNDED tier only (three phases, read back after each later phase)',
               'incompatible units (TypeError text), discrete variables, distributed variables / get_remote, src_indices chains on the connected input']


def _c12_extra(tier, seed, native_run):
    out = {'violations': [], 'errors': []}
    r = _run_bounded('c12_approx.py', [tier], timeout=6000)
    if 'error' in r:
        out['errors'].append('bounded approximation tier could not run: ' + r['error'])
        return out
    out['bounded_approximations'] = {
        'note': 'BOUNDED stand-in (not counted in obligations): real components with approximated partials; coloured == uncoloured approximation (same formula and steps: round-off agreement), approximation within the truncation error of its method vs the exact derivative, inputs/outputs/residuals bitwise unchanged after three consecutive approximations',
        'bound': 'sparsity {diagonal, banded, arrowhead, dense} x n in {4%s}; x: fd forward/central/backward, step_calc abs/rel_avg/rel_element, cs; z declared after x with its own step/form; colouring {none, wrt=*, wrt=[x]}'
                 % (', 6' if tier != 'quick' else ''),
        'evaluations': r['evaluations'], 'distinct_nontrivial': r['distinct_nontrivial'], 'exhaustive': True, 'failures': r['n_failures'],
        'colouring_declared_but_not_activated_by_openmdao': r.get('coloring_not_activated'), 'samples': r['samples']}
    for f in r['failures'][:3]:
        out['violations'].append(dict(f, what='approximation: ' + f['kind'], witness_id='c12-%s' % json_key(f)))
    return out


EXTRA_TIERS['C12'] = _c12_extra
GAPS['C12'] = ['truncation error for non-polynomial functions: BOUNDED tier only (smooth test functions, tolerance proportional to the step)', 'coloured approximation equals uncoloured (ApproximationScheme._init_colored_approximations / _colored_column_iter): BOUNDED tier only',
               'directional options of _get_approx_data callers (step_calc=rel_element itself is proved)', 'compute_approx_col_iter generator (save / finally restore of FD mode)',
               'ComplexStep: outputs/residuals after a point, nested complex-step fallback to FD', 'approximated totals (group level), semi-total colourings']


def _c30_extra(tier, seed, native_run):
    out = {'violations': [], 'errors': []}
    r = _run_bounded('c30_cs_safe.py', [tier], timeout=3000)
    if 'error' in r:
        out['errors'].append('bounded cs_safe tier could not run: ' + r['error'])
        return out
    out['bounded_cs_safe_nd'] = {
        'note': 'BOUNDED stand-in (not counted in obligations): cs_safe.abs / norm (whole array and axis=-1) / arctan2 on n-d arrays: real value == NumPy, complex-step derivative == analytic derivative (all entries perturbed with distinct directions, and one entry at a time), incl. exact zeros',
        'bound': 'shapes (3,), (2,2), (2,3), (1,2,2); entries from {-2, -0.5, 0, 0.5, 3}: exhaustive up to 4 entries (quick: every third 4-entry array), a deterministic slice of the 6-entry arrays',
        'evaluations': r['evaluations'], 'distinct_nontrivial': r['distinct_nontrivial'], 'exhaustive': True, 'failures': r['n_failures'], 'samples': r['samples']}
    for f in r['failures'][:3]:
        out['violations'].append(dict(f, what='cs_safe: ' + f['kind'], witness_id='c30-%s' % json_key(f)))
    return out


EXTRA_TIERS['C30'] = _c30_extra
