/-
  Mathematical lemmas over the *spec functions* used by the sidecar contracts (never about code).
  pyvc treats finite sums, exp and log as uninterpreted; the facts it assumes about them are exactly
  the statements proved here (DESIGN 2.4).  Checked by `lean` on every thorough run; `sorry`/`axiom`
  are scanned for and fail the check.
-/
import Mathlib

open Finset BigOperators

namespace OmLemmas

/-- S1 (pyvc fact `sum_unit_interval`): terms in [0,1] with one term equal to 1 sum to a value in [1, n]. -/
theorem sum_unit_interval (n : ℕ) (f : ℕ → ℝ)
    (h0 : ∀ k ∈ range n, 0 ≤ f k) (h1 : ∀ k ∈ range n, f k ≤ 1)
    (w : ℕ) (hw : w ∈ range n) (hfw : f w = 1) :
    1 ≤ ∑ k ∈ range n, f k ∧ ∑ k ∈ range n, f k ≤ n := by
  constructor
  · calc (1 : ℝ) = f w := hfw.symm
      _ ≤ ∑ k ∈ range n, f k := single_le_sum h0 hw
  · calc ∑ k ∈ range n, f k ≤ ∑ _k ∈ range n, (1 : ℝ) := sum_le_sum h1
      _ = n := by simp

/-- S2 (homogeneity, pyvc fact `sum_scale`): Σ c·f = c·Σ f. -/
theorem sum_scale (n : ℕ) (c : ℝ) (f : ℕ → ℝ) :
    ∑ k ∈ range n, c * f k = c * ∑ k ∈ range n, f k := by
  rw [mul_sum]

/-- S3 (extensionality, pyvc fact `sum_ext`). -/
theorem sum_ext' (n : ℕ) (f g : ℕ → ℝ) (h : ∀ k ∈ range n, f k = g k) :
    ∑ k ∈ range n, f k = ∑ k ∈ range n, g k := sum_congr rfl h

/-- S4 additivity (pyvc fact `sum_add`). -/
theorem sum_add' (n : ℕ) (f g : ℕ → ℝ) :
    ∑ k ∈ range n, (f k + g k) = ∑ k ∈ range n, f k + ∑ k ∈ range n, g k := sum_add_distrib

/-- K1: the Kreisselmeier–Steinhauser value brackets the maximum:
    m ≤ m + (1/ρ) log Σ exp(ρ (g k − m)) ≤ m + log n / ρ  when m is the attained maximum, ρ > 0. -/
theorem ks_bracket (n : ℕ) (g : ℕ → ℝ) (ρ m : ℝ) (hρ : 0 < ρ)
    (hmax : ∀ k ∈ range n, g k ≤ m) (w : ℕ) (hw : w ∈ range n) (hgw : g w = m) :
    m ≤ m + 1 / ρ * Real.log (∑ k ∈ range n, Real.exp (ρ * (g k - m))) ∧
    m + 1 / ρ * Real.log (∑ k ∈ range n, Real.exp (ρ * (g k - m))) ≤ m + Real.log n / ρ := by
  have h0 : ∀ k ∈ range n, 0 ≤ Real.exp (ρ * (g k - m)) := fun k _ => (Real.exp_pos _).le
  have h1 : ∀ k ∈ range n, Real.exp (ρ * (g k - m)) ≤ 1 := by
    intro k hk
    have : ρ * (g k - m) ≤ 0 := mul_nonpos_of_nonneg_of_nonpos hρ.le (sub_nonpos.mpr (hmax k hk))
    simpa using Real.exp_le_one_iff.mpr this
  have hfw : Real.exp (ρ * (g w - m)) = 1 := by simp [hgw]
  obtain ⟨hlo, hhi⟩ := sum_unit_interval n (fun k => Real.exp (ρ * (g k - m))) h0 h1 w hw hfw
  have hSpos : 0 < ∑ k ∈ range n, Real.exp (ρ * (g k - m)) := lt_of_lt_of_le one_pos hlo
  have hlog0 : 0 ≤ Real.log (∑ k ∈ range n, Real.exp (ρ * (g k - m))) := Real.log_nonneg hlo
  have hlogn : Real.log (∑ k ∈ range n, Real.exp (ρ * (g k - m))) ≤ Real.log n :=
    Real.log_le_log hSpos hhi
  have hinv : 0 ≤ 1 / ρ := by positivity
  constructor
  · have : 0 ≤ 1 / ρ * Real.log (∑ k ∈ range n, Real.exp (ρ * (g k - m))) := mul_nonneg hinv hlog0
    linarith
  · have : 1 / ρ * Real.log (∑ k ∈ range n, Real.exp (ρ * (g k - m))) ≤ 1 / ρ * Real.log n :=
      mul_le_mul_of_nonneg_left hlogn hinv
    have e : 1 / ρ * Real.log n = Real.log n / ρ := by ring
    linarith

/-- K2: shift invariance of log-sum-exp (the shifted form computed by the code equals the
    textbook KS function). -/
theorem ks_shift (n : ℕ) (hn : 0 < n) (g : ℕ → ℝ) (ρ m : ℝ) (hρ : 0 < ρ) :
    m + 1 / ρ * Real.log (∑ k ∈ range n, Real.exp (ρ * (g k - m))) =
    1 / ρ * Real.log (∑ k ∈ range n, Real.exp (ρ * g k)) := by
  have hpos : 0 < ∑ k ∈ range n, Real.exp (ρ * (g k - m)) := by
    apply sum_pos
    · intro k _; exact Real.exp_pos _
    · exact ⟨0, mem_range.mpr hn⟩
  have : ∑ k ∈ range n, Real.exp (ρ * g k) = Real.exp (ρ * m) * ∑ k ∈ range n, Real.exp (ρ * (g k - m)) := by
    rw [mul_sum]
    apply sum_congr rfl
    intro k _
    rw [← Real.exp_add]
    congr 1
    ring
  rw [this, Real.log_mul (Real.exp_pos _).ne' hpos.ne', Real.log_exp]
  field_simp

/-- A1 (adjointness of a matrix-vector kernel): ⟨w, A v⟩ = ⟨Aᵀ w, v⟩ as an exchange of finite sums. -/
theorem adjoint_exchange (r c : ℕ) (A : ℕ → ℕ → ℝ) (v w : ℕ → ℝ) :
    ∑ i ∈ range r, w i * (∑ j ∈ range c, A i j * v j) =
    ∑ j ∈ range c, (∑ i ∈ range r, A i j * w i) * v j := by
  simp_rw [mul_sum, sum_mul]
  rw [sum_comm]
  apply sum_congr rfl
  intro j _
  apply sum_congr rfl
  intro i _
  ring

/-- A2: the same with a 0/1 mask on the columns (masked assembled matrices). -/
theorem adjoint_exchange_masked (r c : ℕ) (A : ℕ → ℕ → ℝ) (p : ℕ → ℝ) (v w : ℕ → ℝ) :
    ∑ i ∈ range r, w i * (∑ j ∈ range c, A i j * (p j * v j)) =
    ∑ j ∈ range c, (p j * ∑ i ∈ range r, A i j * w i) * v j := by
  simp_rw [mul_sum, sum_mul]
  rw [sum_comm]
  apply sum_congr rfl
  intro j _
  apply sum_congr rfl
  intro i _
  ring

/-- A3: triplet (COO, duplicates allowed) operators: fwd scatter-add by rows of gathered columns is
    adjoint to rev scatter-add by cols of gathered rows. -/
theorem coo_adjoint (nnz : ℕ) (val : ℕ → ℝ) (row col : ℕ → ℕ) (v w : ℕ → ℝ) :
    ∑ k ∈ range nnz, w (row k) * (val k * v (col k)) =
    ∑ k ∈ range nnz, (val k * w (row k)) * v (col k) := by
  apply sum_congr rfl
  intro k _
  ring

/-- A4: rows/cols kernels with indicator sums (the exact shape of the pyvc contracts):
    fwd  y_i = Σ_k [rows k = i] val k * v (cols k),  rev  x_j = Σ_k [cols k = j] val k * w (rows k). -/
theorem coo_adjoint_ind (r c nnz : ℕ) (val : ℕ → ℝ) (rows cols : ℕ → ℕ) (v w : ℕ → ℝ)
    (hr : ∀ k ∈ range nnz, rows k ∈ range r) (hc : ∀ k ∈ range nnz, cols k ∈ range c) :
    ∑ i ∈ range r, w i * (∑ k ∈ range nnz, if rows k = i then v (cols k) * val k else 0) =
    ∑ j ∈ range c, (∑ k ∈ range nnz, if cols k = j then w (rows k) * val k else 0) * v j := by
  have lhs : ∑ i ∈ range r, w i * (∑ k ∈ range nnz, if rows k = i then v (cols k) * val k else 0) =
      ∑ k ∈ range nnz, w (rows k) * (v (cols k) * val k) := by
    simp_rw [mul_sum]
    rw [sum_comm]
    apply sum_congr rfl
    intro k hk
    simp_rw [mul_ite, mul_zero]
    rw [sum_ite_eq (range r) (rows k) (fun i => w i * (v (cols k) * val k))]
    simp [hr k hk]
  have rhs : ∑ j ∈ range c, (∑ k ∈ range nnz, if cols k = j then w (rows k) * val k else 0) * v j =
      ∑ k ∈ range nnz, (w (rows k) * val k) * v (cols k) := by
    simp_rw [sum_mul]
    rw [sum_comm]
    apply sum_congr rfl
    intro k hk
    simp_rw [ite_mul, zero_mul]
    rw [sum_ite_eq (range c) (cols k) (fun j => w (rows k) * val k * v j)]
    simp [hc k hk]
  rw [lhs, rhs]
  apply sum_congr rfl
  intro k _
  ring

/-- A5: data transfer.  fwd gathers in[in_k] = out[out_k]; rev scatter-adds
    out_j += Σ_k [out_k = j] in[in_k].  Same 0/1 operator, transposed. -/
theorem transfer_adjoint (no m : ℕ) (ini outi : ℕ → ℕ) (v w : ℕ → ℝ)
    (ho : ∀ k ∈ range m, outi k ∈ range no) :
    ∑ k ∈ range m, w (ini k) * v (outi k) =
    ∑ j ∈ range no, (∑ k ∈ range m, if outi k = j then w (ini k) else 0) * v j := by
  simp_rw [sum_mul]
  rw [sum_comm]
  apply sum_congr rfl
  intro k hk
  simp_rw [ite_mul, zero_mul]
  rw [sum_ite_eq (range no) (outi k) (fun j => w (ini k) * v j)]
  simp [ho k hk]

/-- A6: diagonal kernels are self-adjoint. -/
theorem diag_adjoint (n : ℕ) (d v w : ℕ → ℝ) :
    ∑ i ∈ range n, w i * (d i * v i) = ∑ i ∈ range n, (d i * w i) * v i := by
  apply sum_congr rfl
  intro i _
  ring

/-- I1 (array2slice): constant differences give the closed form of an arithmetic progression. -/
theorem ap_closed_form (n : ℕ) (a : ℕ → ℤ) (s : ℤ)
    (h : ∀ k, k + 1 < n → a (k + 1) - a k = s) :
    ∀ k, k < n → a k = a 0 + k * s := by
  intro k
  induction k with
  | zero => intro _; simp
  | succ m ih =>
    intro hm
    have h1 := h m hm
    have h2 := ih (Nat.lt_of_succ_lt hm)
    push_cast
    linarith

/-- I2: an arithmetic progression whose two end points are non-negative is non-negative throughout. -/
theorem ap_nonneg (n : ℕ) (a : ℕ → ℤ) (s : ℤ)
    (h : ∀ k, k + 1 < n → a (k + 1) - a k = s) (hn : 0 < n)
    (h0 : 0 ≤ a 0) (hl : 0 ≤ a (n - 1)) : ∀ k, k < n → 0 ≤ a k := by
  intro k hk
  have hc := ap_closed_form n a s h
  have hk' := hc k hk
  have hl' := hc (n - 1) (Nat.sub_lt hn Nat.one_pos)
  rw [hk']
  rcases le_or_gt 0 s with hs | hs
  · have : (0 : ℤ) ≤ (k : ℤ) * s := mul_nonneg (Int.natCast_nonneg k) hs
    linarith
  · -- s < 0: a k ≥ a (n-1) because k ≤ n-1
    have hkn : (k : ℤ) ≤ ((n - 1 : ℕ) : ℤ) := by
      exact_mod_cast Nat.le_sub_one_of_lt hk
    have : ((n - 1 : ℕ) : ℤ) * s ≤ (k : ℤ) * s := by
      exact mul_le_mul_of_nonpos_right hkn hs.le
    rw [hl'] at hl
    linarith

/-- I3: an increasing arithmetic progression starting at a non-negative value is non-negative. -/
theorem ap_nonneg_inc (n : ℕ) (a : ℕ → ℤ) (s : ℤ)
    (h : ∀ k, k + 1 < n → a (k + 1) - a k = s) (hs : 0 ≤ s) (h0 : 0 ≤ a 0) :
    ∀ k, k < n → 0 ≤ a k := by
  intro k hk
  rw [ap_closed_form n a s h k hk]
  have : (0 : ℤ) ≤ (k : ℤ) * s := mul_nonneg (Int.natCast_nonneg k) hs
  linarith

end OmLemmas
